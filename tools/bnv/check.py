"""./check <property> [--tier quick|thorough] | --replay FILE | --rebaseline"""
import os
import sys
import json
import time
import argparse

from . import run as RUN
from . import props as P
from .gen import Generator
from .lexer import lex

VERIF = RUN.VERIF
BASELINE = os.path.join(VERIF, 'baseline', 'proved.json')
KNOWN = os.path.join(VERIF, 'known_findings.json')

ASSUMPTIONS = [
    'A0 domain: 1 <= N and N*digit_bits <= 65536 (bn_wf) is a precondition of every contract',
    'A1 primitive integer methods (overflowing_add/sub, leading_zeros, ...) have their documented meaning (assume_specification in overlay/prelude.vrs and vstd)',
    'A2 integer `as` casts truncate / sign-extend (Verus bit_vector semantics)',
    'A3 Verus/Z3, rustc -Zunpretty=expanded, and the extractor rewrites R1-R15 (logged per function) are sound',
    'A4 derive(Clone, Copy, PartialEq, Eq, Hash) on the digit array means what it says',
]


def unit_deps(gen, unit):
    """units whose contracts the own functions of `unit` rely on (name-based over-approximation)."""
    own = [it for it in gen.items if it.entry.unit == unit and it.kind in ('fn', 'const', 'proof')]
    names = set()
    for it in own:
        toks = lex(it.full)
        for i, t in enumerate(toks[:-1]):
            if toks[i + 1] == '(' and (t[0].isalpha() or t[0] == '_'):
                names.add(t)
    deps = set()
    import re as _re
    for it in gen.items:
        if it.entry.unit == unit or it.kind not in ('fn', 'const', 'proof'):
            continue
        sc = it.entry.opts.get('scope')
        if sc is not None and _re.fullmatch(sc, unit) is None:
            continue
        short = it.key.split('::')[-1] if it.kind != 'proof' else it.entry.key
        if short in names:
            deps.add(it.entry.unit)
    return deps


def closure(units, digit, mode):
    gens = {}

    def gen_for(tag):
        if tag not in gens:
            gens[tag] = Generator(RUN.load_expansion(mode), RUN.load_overlay(), tag, mode)
            gens[tag].build_items()
        return gens[tag]
    seen = []
    todo = list(units)
    while todo:
        u = todo.pop(0)
        if u in seen:
            continue
        seen.append(u)
        # pair units: one splitting and one packing instantiation (their entries differ by `pairs=`)
        tags = ['u64xu32', 'u32xu64'] if u in P.PAIR_UNITS else [digit]
        for d in sorted(set().union(*[unit_deps(gen_for(t), u) for t in tags])):
            if d not in seen:
                todo.append(d)
    return seen


def load_json(p, default):
    try:
        return json.load(open(p))
    except Exception:
        return default


def key_of(res, item):
    return f"{res['unit']}/{res['digit']}/{res['mode']}/{item['key']}"


def run_property(pid, tier, seed=0):
    t0 = time.time()
    cfg = P.PROPS[pid]
    digits = P.QUICK_DIGITS if tier == 'quick' else P.ALL_DIGITS
    own_units = cfg['units']
    jobs = []
    dep_units = {}
    for u in own_units:
        for m in P.unit_modes(u):
            RUN.load_expansion(m)
    all_units = []
    for m in sorted({m for u in own_units for m in P.unit_modes(u)}):
        for u in closure([u for u in own_units if m in P.unit_modes(u)], 'u64', m):
            if (u, m) not in all_units:
                all_units.append((u, m))
    for (u, m) in all_units:
        for d in P.unit_digits(u, digits):
            jobs.append((u, d, m, False))
    # vacuity canaries: own units, every digit type of the tier (a canary must fire for at least one of them)
    for u in own_units:
        for m in P.unit_modes(u):
            for d in P.unit_digits(u, digits):
                jobs.append((u, d, m, True))
    results = RUN.verify_many(jobs, workers=int(os.environ.get('BNV_WORKERS', '7')))
    baseline = set(load_json(BASELINE, {}).get('proved', []))
    known = load_json(KNOWN, {'findings': [], 'fixed': []})
    violations = []
    undecided = []
    functions = []
    obligations = 0
    discharged = 0
    smt_us = 0
    rewrites = {}
    samples = []
    canary_total = 0
    canary_fired = 0
    canary_union = {}
    from .cex import generic_key as CEXK
    assumed_contracts = set()
    always_assumed = set()
    lifted = set()
    for res in results:
        tag = f"{res['unit']}/{res['digit']}/{res['mode']}"
        if res['canary']:
            if not res['ran_verification'] and res['other_errors']:
                undecided.append(f"canary {tag}: {res['other_errors'][0]['message']}")
            for it in res['items']:
                if it['kind'] == 'proof':
                    continue
                # a canary must fire for at least one digit type: a branch that is statically dead for one digit
                # width (e.g. `if Digit::BITS > u8::BITS`) is reachable for another, whereas a contradictory
                # `requires`/invariant is unreachable for all of them.  The function-top canary (id 0) must fire always.
                ck = (res['unit'], res['mode'], CEXK(it['key']))
                ent = canary_union.setdefault(ck, dict(n=it['n_canaries'], ids=set(), top_missing=[], ran=False))
                ent['n'] = max(ent['n'], it['n_canaries'])
                if res['ran_verification']:
                    ent['ran'] = True
                    ids = set(it.get('canary_ids') or [])
                    ent['ids'] |= ids
                    if it['n_canaries'] and 0 not in ids:
                        ent['top_missing'].append(res['digit'])
            continue
        for pb in res['problems']:
            undecided.append(f"{pb['kind']} {tag}/{pb['key']}: {pb['detail']}")
        if not res['ran_verification']:
            msg = res['other_errors'][0]['message'] if res['other_errors'] else (res.get('stderr_tail') or res['verus_status'])
            undecided.append(f"verus did not reach verification for {tag}: {msg[:300]}")
        for uf in res['unattributed_failures']:
            undecided.append(f"failure outside contracted functions in {tag}: {uf['message']}")
        for it in res['items']:
            k = key_of(res, it)
            obligations += it['obligations']
            discharged += it['discharged']
            smt_us += it['smt_us'] or 0
            for r, c in it['rewrites'].items():
                rewrites[r] = rewrites.get(r, 0) + c
            functions.append(dict(fn=it['key'], unit=res['unit'], digit=res['digit'], mode=res['mode'], status=it['status'], obligations=it['obligations'],
                                  smt_ms=round((it['smt_us'] or 0) / 1000, 1), backend='verus/z3', identical_to_overlay=it['identical'], align=it['align_ratio']))
            if it['status'] == 'failed':
                if k in baseline or not baseline:
                    violations.append(dict(res=res, item=it, key=k))
                else:
                    undecided.append(f'{k}: obligation fails but the function is not in the proved baseline (unfinished proof)')
            elif it['status'] in ('rlimit', 'undecided'):
                if res['ran_verification']:
                    undecided.append(f'{k}: {it["status"]}')
            if len(samples) < 12 and it['kind'] != 'proof' and res['unit'] in own_units:
                samples.append(dict(function=it['key'], digit=res['digit'], mode=res['mode'], obligations=it['obligations'], status=it['status']))
        for s in res['stubs']:
            assumed_contracts.add(s)
        for s in res.get('assumed', []):
            always_assumed.add(s)
        for s in res.get('lifted', []):
            lifted.add(s)
    for (cu, cm, ckey), ent in sorted(canary_union.items()):
        if not ent['ran']:
            continue
        canary_total += ent['n']
        canary_fired += len([i for i in ent['ids'] if i < ent['n']])
        if ent['top_missing']:
            undecided.append(f"vacuity: the precondition canary of {cu}/{cm}/{ckey} did not fire for {ent['top_missing']}")
        missing = [i for i in range(ent['n']) if i not in ent['ids']]
        if missing:
            undecided.append(f"vacuity: canaries {missing} of {cu}/{cm}/{ckey} did not fire for any digit type in this run")
    # contracts used as stubs whose home unit was verified in this run are proved, not assumed
    proved_here = {f['fn'] for f in functions if f['status'] == 'proved'}
    assumed = sorted({s for s in assumed_contracts if s not in proved_here} | always_assumed)
    # ---- Kani harnesses (bounded stand-ins / cross-checks) registered for this property
    from . import kani as KANI
    from . import cex as CEX
    kres = dict(results=[], violations=[], undecided=[], wall_s=0.0, checks=0, harnesses=0)
    if cfg.get('kani', True) and not os.environ.get('BNV_NO_KANI'):
        try:
            kres = KANI.run_property(pid, tier, seed)
        except Exception as ex:
            undecided.append(f'kani run failed: {ex}')
    undecided += kres['undecided']
    # ---- report
    os.makedirs(os.path.join(VERIF, 'build', 'replays'), exist_ok=True)
    exit_code = 0
    reported = 0
    lines = []
    seen_generic = set()
    for kv in kres['violations']:
        finding = match_known(known, pid, kv['harness'], None, kv.get('failed_checks'))
        if finding:
            l = f"KNOWN-FINDING: property={pid} {finding}"
            if l not in lines:
                lines.append(l)
            continue
        reported += 1
        rp = os.path.join(VERIF, 'build', 'replays', f"{pid}_kani_{kv['harness']}_{kv['mode']}.json")
        h = [x for x in KANI.load_harnesses() if x['name'] == kv['harness']][0]
        tests, r, raw = KANI.concrete_playback_all(h, mode=kv['mode'])
        replay = dict(property=pid, function=kv['harness'], engine='kani', failed_obligations=kv['failed_checks'] or [kv['reason']], verifier_output=[kv['reason']],
                      config=kv['config'], mode=kv['mode'],
                      concrete_input=(dict(engine='kani', harness=kv['harness'], mode=kv['mode'], playback_tests=tests) if tests else None))
        json.dump(replay, open(rp, 'w'), indent=1)
        lines.append(f"VIOLATION property={pid} replay={rp}" + ('' if tests else ' no-failing-input-found'))
        exit_code = 1
    spent_v = 0.0
    for v in violations:
        item = v['item']
        res = v['res']
        finding = match_known(known, pid, item['key'], res)
        if finding:
            lines.append(f"KNOWN-FINDING: property={pid} {finding}")
            continue
        gk = CEX.generic_key(item['key']) + '/' + res['mode']
        if gk in seen_generic:
            continue  # same function, another digit type: one VIOLATION line per function and mode
        seen_generic.add(gk)
        reported += 1
        rp = os.path.join(VERIF, 'build', 'replays', f"{pid}_{res['unit']}_{res['digit']}_{res['mode']}_{item['key'].replace('::', '.').replace(' ', '')}.json")
        replay = dict(property=pid, function=item['key'], unit=res['unit'], digit=res['digit'], mode=res['mode'],
                      failed_obligations=[f['message'] for f in item['failures']], verifier_output=[f['rendered'] for f in item['failures']],
                      generated_file=res['file'], checker_cmd=res['cmd'], concrete_input=None)
        cex = None
        st = {}
        try:
            t1 = time.time()
            if spent_v <= (600 if tier == 'quick' else 3600):
                cex = CEX.search(pid, item['key'].replace('__mp', '').replace('__wf', ''), res['digit'], res['mode'], budget_s=(240 if tier == 'quick' else 1200), stats=st)
            else:
                replay['cex_search_error'] = 'counter-example search budget of this run used up by earlier violations'
            spent_v += time.time() - t1
        except Exception as ex:  # counter-example search is best effort
            replay['cex_search_error'] = str(ex)
        if cex:
            replay['concrete_input'] = cex
        elif not item.get('identical', True) and st.get('exact') and st.get('passed') and not st.get('failed'):
            # the function was CHANGED, its transplanted proof no longer goes through, no failing input was found, and
            # the bounded harnesses registered for exactly this function pass on the changed code: proof hints that no
            # longer carry are not a property violation (DESIGN 3.7) - undecided, not an alarm
            reported -= 1
            undecided.append(f"{v['key']}: the function changed and its proof no longer goes through ({'; '.join(replay['failed_obligations'][:2])}), "
                             f"but the bounded harnesses registered for it pass on the changed code ({', '.join(st['passed'][:4])}) and no failing input was found")
            continue
        json.dump(replay, open(rp, 'w'), indent=1)
        suffix = '' if cex else ' no-failing-input-found'
        lines.append(f"VIOLATION property={pid} replay={rp}{suffix}")
        exit_code = 1
    # ---- functions that changed and could not be decided by Verus (lost anchor, ghost text no longer fits the
    # new code, unsupported construct): fall back to the registered Kani harnesses of exactly those functions.
    # A concrete failing input found there is a violation (bounded evidence, replayable); nothing found stays undecided.
    suspects = {}
    for res in results:
        if res['canary']:
            continue
        for it in res['items']:
            if it['status'] != 'proved' and not it['identical'] and it['kind'] != 'proof':
                suspects.setdefault(CEX.generic_key(it['key'].replace('__mp', '')), (res, it['key']))
        for pb in res['problems']:
            suspects.setdefault(CEX.generic_key(pb['key'].replace('__mp', '')), (res, pb['key']))
    done_generic = {g.split('/')[0] for g in seen_generic}
    spent = 0.0
    for gk, (res, key) in sorted(suspects.items()):
        if gk in done_generic or spent > (600 if tier == 'quick' else 3600) or os.environ.get('BNV_NO_KANI'):
            continue
        t1 = time.time()
        try:
            cex = CEX.search(pid, key, res['digit'], res['mode'], budget_s=(240 if tier == 'quick' else 1200))
        except Exception as ex:
            cex = None
            undecided.append(f'counter-example search for {key} failed: {ex}')
        spent += time.time() - t1
        if cex:
            reported += 1
            rp = os.path.join(VERIF, 'build', 'replays', f"{pid}_changed_{key.replace('::', '.').replace(' ', '')}.json")
            json.dump(dict(property=pid, function=key, unit=res['unit'], digit=res['digit'], mode=res['mode'],
                           failed_obligations=['the function changed and its proof no longer applies (undecided by Verus); a registered Kani harness fails'] + cex.get('failed_checks', []),
                           verifier_output=[], concrete_input=cex), open(rp, 'w'), indent=1)
            lines.append(f"VIOLATION property={pid} replay={rp}")
            exit_code = 1
    if exit_code == 0 and undecided:
        exit_code = 2
    wall = time.time() - t0
    kpass = sum(1 for r in kres['results'] if r['verdict'] == 'pass')
    level = cfg.get('level', 'proof' if own_units else 'model_checking')
    nproved = sum(1 for f in functions if f['status'] == 'proved')
    for r in kres['results'][:6]:
        samples.append(dict(kani_harness=r['harness'], config=r['config'], mode=r['mode'], verdict=r['verdict'], checks=r['checks'], inputs=r['inputs']))
    ev = dict(property_id=pid, tier=tier, seed=seed, level=level, wall_s=round(wall, 2), violations=reported,
              coverage=dict(obligations=(obligations if own_units else kres['checks']), discharged=(discharged if own_units else sum((r['checks'] or 0) for r in kres['results'] if r['verdict'] in ('pass',))),
                            verus_obligations=obligations, verus_discharged=discharged,
                            evaluations=len(functions) + len(kres['results']), distinct_nontrivial=nproved + kpass,
                            rule='one case = one contracted function (per digit type and build mode) whose every obligation Verus discharged, or one Kani harness (full symbolic input domain of one configuration) that passed with its reachability cover satisfied',
                            kani=dict(harnesses=len(kres['results']), registered=kres.get('registered'), passed=kpass, cbmc_checks=kres['checks'], wall_s=kres['wall_s'], results=kres['results'],
                                      note='bounded: complete over all inputs of the listed configurations only; never counted as proved'),
                            checker_cmd='verus <generated file> --output-json --time --error-format=json (one file per unit x digit x mode under build/verus/)',
                            trusted_base=ASSUMPTIONS,
                            functions=functions, assumed_contracts=assumed, wf_lifted_contracts=dict(note='std trait methods whose body needs a precondition P that a trait method cannot state (A0 N >= 1): the real body is proved against `requires P ensures Q` as the inherent twin `<m>__wf_<Trait>`; callers see `ensures P ==> Q` on the trait method', functions=sorted(lifted)), rewrites=rewrites,
                            units=[f'{u}:{m}' for (u, m) in all_units], digits=digits,
                            canary=dict(expected=canary_total, fired=canary_fired),
                            solver_time_s=round(smt_us / 1e6, 2), undecided=undecided[:50], samples=samples,
                            repo_tree_hash=RUN.repo_hash()[:16]),
              assumptions=ASSUMPTIONS + scan_trusted([u for (u, m) in all_units]) + [f'A6 assumed contract (home unit not verified in this run): {a}' for a in assumed])
    os.makedirs(os.path.join(VERIF, 'evidence'), exist_ok=True)
    json.dump(ev, open(os.path.join(VERIF, 'evidence', pid + '.json'), 'w'), indent=1)
    for l in lines:
        print(l)
    nf = sum(1 for f in functions if f['status'] == 'proved')
    print(f"[{pid}] tier={tier} functions={len(functions)} proved={nf} obligations={obligations} discharged={discharged} canaries={canary_fired}/{canary_total} undecided={len(undecided)} wall={wall:.1f}s exit={exit_code}")
    for u in undecided[:20]:
        print('  UNDECIDED:', u)
    return exit_code



def scan_trusted(units):
    """mechanical scan of the overlay text of the given units (and the prelude) for every item that is trusted
    rather than proved: `assume_specification[..]`, hand-written `#[verifier::external_body]` items (raw entries),
    `assume(..)` / `admit()` statements and `axiom` fns.  Reported in every evidence file (A1)."""
    import re
    out = []
    files = [('prelude', os.path.join(VERIF, 'overlay', 'prelude.vrs'))] + [(u, os.path.join(VERIF, 'overlay', 'units', u + '.vrs')) for u in sorted(set(units))]
    for u, f in files:
        if not os.path.exists(f):
            continue
        t = open(f).read()
        for m in re.finditer(r'assume_specification\s*(?:<[^>\[]*>\s*)?\[\s*(.+?)\s*\]\s*\(', t):
            out.append(f'A1 trusted (scan of overlay {u}): assume_specification[{" ".join(m.group(1).split())}]')
        for m in re.finditer(r'#\[verifier::external_body\]\s*(?:#\[[^\]]*\]\s*)*(?:pub(?:\([a-z]+\))?\s+)?(?:const\s+|unsafe\s+)*(?:proof\s+|exec\s+)?fn\s+([A-Za-z0-9_${}]+)', t):
            out.append(f'A1 trusted (scan of overlay {u}): external_body fn {m.group(1)}')
        for m in re.finditer(r'(?:proof|broadcast proof)\s+fn\s+(bn_axiom[A-Za-z0-9_]*)', t):
            out.append(f'A1 trusted (scan of overlay {u}): axiom {m.group(1)}')
        n = len(re.findall(r'(?<![A-Za-z0-9_])assume\s*\(', t)) + len(re.findall(r'(?<![A-Za-z0-9_])admit\s*\(\s*\)', t))
        if n:
            out.append(f'A1 trusted (scan of overlay {u}): {n} assume(..)/admit() statement(s)')
    return sorted(set(out))


def match_known(known, pid, fnkey, res, failed_checks=None):
    """a listed finding excuses exactly the recorded failure: same property, same function/harness and,
    when the entry says so, every failed check must be the recorded one (anything else is a new violation)"""
    for f in known.get('findings', []):
        if f.get('property') == pid and f.get('function') == fnkey:
            sub = f.get('only_failed_check_contains')
            if sub is not None and failed_checks is not None:
                if not failed_checks or any(sub not in c for c in failed_checks):
                    continue
            return f.get('what', '')
    return None


def rebaseline():
    """developer command: record every function proved on the (unchanged) tree."""
    proved = []
    ov = RUN.load_overlay()
    jobs = []
    modes = {}
    for u in ov.units:
        for m in P.unit_modes(u):
            for d in P.unit_digits(u, P.ALL_DIGITS):
                jobs.append((u, d, m, False))
    results = RUN.verify_many(jobs, workers=int(os.environ.get('BNV_WORKERS', '7')))
    bad = 0
    for res in results:
        for it in res['items']:
            if it['status'] == 'proved':
                proved.append(key_of(res, it))
            else:
                bad += 1
                print('NOT PROVED', key_of(res, it), it['status'], [f['message'] for f in it['failures']][:2])
        if not res['ran_verification']:
            print('NO VERIFICATION', res['unit'], res['digit'], res['mode'], res['other_errors'][:1], res['stderr_tail'][-300:])
    os.makedirs(os.path.dirname(BASELINE), exist_ok=True)
    json.dump(dict(proved=sorted(proved)), open(BASELINE, 'w'), indent=0)
    print(f'baseline: {len(proved)} proved, {bad} not proved')


def dev_unit(unit, digit, mode, canary, digit2=None):
    digits = P.ALL_DIGITS if digit == 'all' else digit.split(',')
    if digit2:
        # pair units: --digit TARGET --digit2 SOURCE (each may be `all`) -> tags TARGETxSOURCE
        d2s = P.ALL_DIGITS if digit2 == 'all' else digit2.split(',')
        digits = [f'{a}x{b}' for a in digits for b in d2s if a != b]
    rc = 0
    results = RUN.verify_many([(unit, d, mode, canary) for d in digits], workers=int(os.environ.get('BNV_WORKERS', '4')))
    for res in results:
        print(f"== {unit} {res['digit']} {mode}: verus {res['verus_status']} verified={res['verified']} errors={res['errors']} wall={res['wall_s']:.1f}s file={res['file']}")
        for pb in res['problems']:
            print('  PROBLEM', pb)
        for e in res['other_errors']:
            print('  ERROR (not a verification failure):', e['item'], e['message'])
            print(e['rendered'])
            rc = 2
        for e in res['unattributed_failures']:
            print('  FAILURE outside own items:', e['item'], e['message'])
            print(e['rendered'])
        if not res['ran_verification'] and res['stderr_tail']:
            print(res['stderr_tail'])
        for it in res['items']:
            if canary:
                if it['kind'] != 'proof' and (it['canaries_fired'] or 0) < it['n_canaries']:
                    print(f"  CANARY DID NOT FIRE {it['key']} {it['canaries_fired']}/{it['n_canaries']}")
                    rc = rc or 1
                continue
            if it['status'] != 'proved':
                rc = rc or 1
                print(f"  {it['status'].upper()} {it['key']}  (align {it['align_ratio']}, smt {it['smt_us']}us)")
                for f in it['failures']:
                    print(f['rendered'])
        slow = sorted([i for i in res['items'] if (i['smt_us'] or 0) > 5e6], key=lambda i: -i['smt_us'])
        for i in slow:
            print(f"  SLOW {i['key']} {i['smt_us']/1e6:.1f}s rlimit={i['rlimit']}")
    return rc


def main(argv=None):
    ap = argparse.ArgumentParser()
    ap.add_argument('prop', nargs='?')
    ap.add_argument('--tier', default=os.environ.get('VERIF_TIER', 'quick'))
    ap.add_argument('--replay')
    ap.add_argument('--rebaseline', action='store_true')
    ap.add_argument('--unit', help='developer: verify one unit and print failures')
    ap.add_argument('--digit', default='u64')
    ap.add_argument('--digit2', help='developer, pair units: second (source) digit type or `all`')
    ap.add_argument('--mode', default='dbg')
    ap.add_argument('--canary', action='store_true')
    a = ap.parse_args(argv)
    if a.rebaseline:
        rebaseline()
        return 0
    if a.unit:
        return dev_unit(a.unit, a.digit, a.mode, a.canary, a.digit2)
    if a.replay:
        from . import cex as CEX
        return CEX.replay(a.replay)
    seed = int(os.environ.get('VERIF_SEED', '0') or 0)
    try:
        return run_property(a.prop, a.tier if a.tier in ('quick', 'thorough') else 'quick', seed)
    except RUN.Infra as ex:
        print(f'[{a.prop}] infrastructure problem (exit 2): {ex}')
        return 2


if __name__ == '__main__':
    sys.exit(main())
