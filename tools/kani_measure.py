#!/usr/bin/env python3
"""Developer command: run the registered harnesses of the given properties (all tiers unless --quick) on the unchanged
tree and record the measured CPU seconds per harness (cbmc + goto-instrument processes, sampled from /proc) as `est_s`
in kani/harnesses.json.  Kani's own `Verification Time` covers the SAT solver only."""
import json
import os
import sys

sys.path.insert(0, os.path.dirname(os.path.abspath(__file__)))
from bnv import kani as K  # noqa: E402

args = [a for a in sys.argv[1:] if not a.startswith('--')]
quick = '--quick' in sys.argv
path = os.path.join(K.KDIR, 'harnesses.json')
allh = json.load(open(path))
sel = [h for h in allh if not h.get('disabled') and h.get('tier') != 'cex' and (not args or h['property'] in args) and (not quick or h.get('tier', 'quick') == 'quick')]
by_mode = {'dbg': [], 'rel': []}
for h in sel:
    m = h.get('mode', 'dbg')
    for mm in (['dbg', 'rel'] if m == 'both' else [m]):
        by_mode[mm].append(h)
meas = {}
for mode, lst in by_mode.items():
    for i in range(0, len(lst), 100):
        chunk = lst[i:i + 100]
        res, raw = K.run_harnesses(chunk, mode=mode, jobs=int(os.environ.get('KJOBS', '6')), timeout=4 * 3600)
        for h in chunk:
            r = res.get(h['name']) or {}
            c = max(r.get('cpu_s') or 0.0, r.get('time_s') or 0.0)
            if r.get('status'):
                meas[h['name']] = max(meas.get(h['name'], 0.0), c)
        print(f'[{mode}] {min(i + 100, len(lst))}/{len(lst)}', flush=True)
allh = json.load(open(path))
n = 0
for h in allh:
    if h['name'] in meas:
        new = max(1, round(meas[h['name']]))
        if new != h.get('est_s'):
            n += 1
        h['est_s'] = new
json.dump(allh, open(path, 'w'), indent=1)
print('updated est_s of', n, 'harnesses;', 'slowest:', sorted(meas.items(), key=lambda kv: -kv[1])[:10])
